//! Small helpers: panic capture, save/load wrappers, parallel iteration, hook control.
use lopdf::xref::XrefType;
use lopdf::Document;
use rayon::prelude::*;
use std::cell::RefCell;
use std::panic::{catch_unwind, AssertUnwindSafe};

thread_local! {
    static LAST_PANIC: RefCell<String> = const { RefCell::new(String::new()) };
    static GUARD_DEPTH: std::cell::Cell<u32> = const { std::cell::Cell::new(0) };
}

/// (message, location) of recent panics on any thread: a panic inside one of lopdf's rayon
/// workers is re-thrown on the calling thread, whose thread-local record would be empty.
static RECENT: std::sync::Mutex<Vec<(String, String)>> = std::sync::Mutex::new(Vec::new());

/// Install a panic hook that records the message and location instead of printing it.
pub fn quiet_panics() {
    std::panic::set_hook(Box::new(|info| {
        let loc = info.location().map(|l| format!("{}:{}", l.file(), l.line())).unwrap_or_default();
        let msg = if let Some(s) = info.payload().downcast_ref::<&str>() {
            s.to_string()
        } else if let Some(s) = info.payload().downcast_ref::<String>() {
            s.clone()
        } else {
            "non-string panic".to_string()
        };
        RECENT.lock().unwrap_or_else(|e| e.into_inner()).push((msg.clone(), loc.clone()));
        if GUARD_DEPTH.with(|d| d.get()) == 0 && std::thread::current().name() == Some("main") {
            // a panic of the harness itself (outside any guarded call into lopdf): show it
            eprintln!("MACHINERY: harness panic at {}: {}", loc, msg);
        }
        LAST_PANIC.with(|p| *p.borrow_mut() = format!("panic at {}: {}", loc, msg));
    }));
}

/// Run `f`, turning a panic into Err(message with location).
pub fn guard<T>(f: impl FnOnce() -> T) -> Result<T, String> {
    GUARD_DEPTH.with(|d| d.set(d.get() + 1));
    let r = catch_unwind(AssertUnwindSafe(f));
    GUARD_DEPTH.with(|d| d.set(d.get() - 1));
    match r {
        Ok(v) => Ok(v),
        Err(payload) => {
            let msg = if let Some(s) = payload.downcast_ref::<&str>() {
                s.to_string()
            } else if let Some(s) = payload.downcast_ref::<String>() {
                s.clone()
            } else {
                "non-string panic".to_string()
            };
            let mut recent = RECENT.lock().unwrap_or_else(|e| e.into_inner());
            let loc = recent.iter().rev().find(|(m, _)| *m == msg).map(|(_, l)| l.clone()).unwrap_or_default();
            if recent.len() > 256 {
                let n = recent.len() - 64;
                recent.drain(..n);
            }
            Err(format!("panic at {}: {}", loc, msg))
        }
    }
}

/// Make every load in this process merge object-stream blocks in container-id order, so that
/// verdicts of checks other than C08 cannot depend on the thread schedule (DESIGN §2.9).
pub fn pin_schedule() {
    lopdf::verif_hooks::set_default_sorted(true);
}

pub fn set_xref(doc: &mut Document, table: bool) {
    doc.reference_table.cross_reference_type = if table {
        XrefType::CrossReferenceTable
    } else {
        XrefType::CrossReferenceStream
    };
}

/// Save a clone of `doc` in the given cross-reference format.
pub fn save_bytes(doc: &Document, table: bool) -> Result<Vec<u8>, String> {
    let mut d = doc.clone();
    set_xref(&mut d, table);
    let mut out = Vec::new();
    match guard(|| d.save_to(&mut out)) {
        Ok(Ok(())) => Ok(out),
        Ok(Err(e)) => Err(format!("save error: {}", e)),
        Err(p) => Err(p),
    }
}

pub fn load(bytes: &[u8]) -> Result<Document, String> {
    match guard(|| Document::load_mem(bytes)) {
        Ok(Ok(d)) => Ok(d),
        Ok(Err(e)) => Err(format!("load error: {}", e)),
        Err(p) => Err(p),
    }
}

/// Run `f(i)` for i in 0..n on all cores.
pub fn par_for(n: usize, f: impl Fn(usize) + Sync + Send) {
    (0..n).into_par_iter().for_each(f);
}

pub fn init_pool() {
    let n = std::thread::available_parallelism().map(|n| n.get()).unwrap_or(8);
    let _ = rayon::ThreadPoolBuilder::new().num_threads(n).stack_size(16 << 20).build_global();
}

// ---------------------------------------------------------------------------------------------
// entry-point agreement: every public way of loading the same bytes gives the same document

/// `Read` that hands out at most `chunk` bytes per call (short reads).
pub struct ChunkReader<'a> {
    pub data: &'a [u8],
    pub pos: usize,
    pub chunk: usize,
}

impl std::io::Read for ChunkReader<'_> {
    fn read(&mut self, buf: &mut [u8]) -> std::io::Result<usize> {
        let n = buf.len().min(self.chunk).min(self.data.len() - self.pos);
        buf[..n].copy_from_slice(&self.data[self.pos..self.pos + n]);
        self.pos += n;
        Ok(n)
    }
}

/// Exact comparison of two loaded documents (no tolerance: the same bytes were read twice).
pub fn same_document(a: &Document, b: &Document) -> Option<String> {
    if a.version != b.version {
        return Some(format!("version {:?} vs {:?}", a.version, b.version));
    }
    if a.max_id != b.max_id {
        return Some(format!("max_id {} vs {}", a.max_id, b.max_id));
    }
    if a.objects != b.objects {
        return Some(crate::cmp::diff_objects(&a.objects, &b.objects).unwrap_or_else(|| "objects differ (below the tolerance of the structural comparison)".into()));
    }
    if a.trailer != b.trailer {
        return Some(format!("trailer {} vs {}", crate::objjson::show(&lopdf::Object::Dictionary(a.trailer.clone())), crate::objjson::show(&lopdf::Object::Dictionary(b.trailer.clone()))));
    }
    if format!("{:?}", a.reference_table) != format!("{:?}", b.reference_table) {
        return Some("cross-reference tables differ".into());
    }
    if a.bookmarks != b.bookmarks || a.bookmark_table.len() != b.bookmark_table.len() {
        return Some("bookmark state differs".into());
    }
    None
}

/// A fresh path under /verif/target/scratch (the caller removes the file).
pub fn scratch_path() -> Result<std::path::PathBuf, String> {
    use std::sync::atomic::{AtomicU64, Ordering};
    static N: AtomicU64 = AtomicU64::new(0);
    let root = std::env::var("VERIF_ROOT").unwrap_or_else(|_| "/verif".into());
    let dir = std::path::Path::new(&root).join("target").join("scratch");
    std::fs::create_dir_all(&dir).map_err(|e| format!("scratch dir: {}", e))?;
    Ok(dir.join(format!("{}-{}.pdf", std::process::id(), N.fetch_add(1, Ordering::Relaxed))))
}

fn scratch_file(bytes: &[u8]) -> Result<std::path::PathBuf, String> {
    let p = scratch_path()?;
    std::fs::write(&p, bytes).map_err(|e| format!("scratch file: {}", e))?;
    Ok(p)
}

fn keep_all(id: (u32, u16), o: &mut lopdf::Object) -> Option<((u32, u16), lopdf::Object)> {
    Some((id, o.clone()))
}

/// Load `bytes` through every other public entry point and compare with the `load_mem` outcome
/// `base`. `paths` adds the path-taking functions (a scratch file under /verif/target/scratch).
/// Returns the first disagreement. Err(..) = machinery problem (scratch file).
pub fn entry_point_agreement(bytes: &[u8], base: &Result<Document, String>, paths: bool) -> Result<Option<String>, String> {
    let cmp = |name: &str, other: Result<Document, String>| -> Option<String> {
        match (base, &other) {
            (Ok(a), Ok(b)) => same_document(a, b).map(|m| format!("{} differs from load_mem: {}", name, m)),
            (Err(_), Err(_)) => None,
            (Ok(_), Err(e)) => Some(format!("{} fails ({}) where load_mem succeeds", name, e)),
            (Err(e), Ok(_)) => Some(format!("{} succeeds where load_mem fails ({})", name, e)),
        }
    };
    let wrap = |r: Result<lopdf::Result<Document>, String>| match r {
        Ok(Ok(d)) => Ok(d),
        Ok(Err(e)) => Err(format!("load error: {}", e)),
        Err(p) => Err(p),
    };
    for chunk in [1usize, 4093] {
        if chunk == 1 && bytes.len() > 20_000 {
            continue;
        }
        let r = wrap(guard(|| Document::load_from(ChunkReader { data: bytes, pos: 0, chunk })));
        if let Some(m) = cmp(&format!("load_from({}-byte reads)", chunk), r) {
            return Ok(Some(m));
        }
    }
    let r = wrap(guard(|| lopdf::IncrementalDocument::load_from(ChunkReader { data: bytes, pos: 0, chunk: 777 }).map(|i| {
        let same_bytes = i.get_prev_documents_bytes() == bytes;
        let mut d = i.get_prev_documents().clone();
        if !same_bytes {
            d.version = "previous bytes differ from the input".into();
        }
        d
    })));
    if let Some(m) = cmp("IncrementalDocument::load_from", r) {
        return Ok(Some(m));
    }
    let r = wrap(guard(|| lopdf::IncrementalDocument::load_mem(bytes)));
    if let Some(m) = cmp("IncrementalDocument::load_mem", r) {
        return Ok(Some(m));
    }
    if paths {
        let p = scratch_file(bytes)?;
        let r1 = wrap(guard(|| Document::load(&p)));
        let r2 = wrap(guard(|| Document::load_filtered(&p, keep_all)));
        let r3 = wrap(guard(|| lopdf::IncrementalDocument::load(&p).map(|i| i.get_prev_documents().clone())));
        let _ = std::fs::remove_file(&p);
        for (n, r) in [("Document::load(path)", r1), ("Document::load_filtered(path, keep-all filter)", r2), ("IncrementalDocument::load(path)", r3)] {
            if let Some(m) = cmp(n, r) {
                return Ok(Some(m));
            }
        }
    }
    Ok(None)
}
