//! Small helpers: panic capture, save/load wrappers, parallel iteration, hook control.
use lopdf::xref::XrefType;
use lopdf::Document;
use rayon::prelude::*;
use std::cell::RefCell;
use std::panic::{catch_unwind, AssertUnwindSafe};

thread_local! {
    static LAST_PANIC: RefCell<String> = const { RefCell::new(String::new()) };
    static GUARD_DEPTH: std::cell::Cell<u32> = const { std::cell::Cell::new(0) };
}

/// (message, location) of recent panics on any thread: a panic inside one of lopdf's rayon
/// workers is re-thrown on the calling thread, whose thread-local record would be empty.
static RECENT: std::sync::Mutex<Vec<(String, String)>> = std::sync::Mutex::new(Vec::new());

/// Install a panic hook that records the message and location instead of printing it.
pub fn quiet_panics() {
    std::panic::set_hook(Box::new(|info| {
        let loc = info.location().map(|l| format!("{}:{}", l.file(), l.line())).unwrap_or_default();
        let msg = if let Some(s) = info.payload().downcast_ref::<&str>() {
            s.to_string()
        } else if let Some(s) = info.payload().downcast_ref::<String>() {
            s.clone()
        } else {
            "non-string panic".to_string()
        };
        RECENT.lock().unwrap_or_else(|e| e.into_inner()).push((msg.clone(), loc.clone()));
        if GUARD_DEPTH.with(|d| d.get()) == 0 && std::thread::current().name() == Some("main") {
            // a panic of the harness itself (outside any guarded call into lopdf): show it
            eprintln!("MACHINERY: harness panic at {}: {}", loc, msg);
        }
        LAST_PANIC.with(|p| *p.borrow_mut() = format!("panic at {}: {}", loc, msg));
    }));
}

/// Run `f`, turning a panic into Err(message with location).
pub fn guard<T>(f: impl FnOnce() -> T) -> Result<T, String> {
    GUARD_DEPTH.with(|d| d.set(d.get() + 1));
    let r = catch_unwind(AssertUnwindSafe(f));
    GUARD_DEPTH.with(|d| d.set(d.get() - 1));
    match r {
        Ok(v) => Ok(v),
        Err(payload) => {
            let msg = if let Some(s) = payload.downcast_ref::<&str>() {
                s.to_string()
            } else if let Some(s) = payload.downcast_ref::<String>() {
                s.clone()
            } else {
                "non-string panic".to_string()
            };
            let mut recent = RECENT.lock().unwrap_or_else(|e| e.into_inner());
            let loc = recent.iter().rev().find(|(m, _)| *m == msg).map(|(_, l)| l.clone()).unwrap_or_default();
            if recent.len() > 256 {
                let n = recent.len() - 64;
                recent.drain(..n);
            }
            Err(format!("panic at {}: {}", loc, msg))
        }
    }
}

/// Make every load in this process merge object-stream blocks in container-id order, so that
/// verdicts of checks other than C08 cannot depend on the thread schedule (DESIGN §2.9).
pub fn pin_schedule() {
    lopdf::verif_hooks::set_default_sorted(true);
}

pub fn set_xref(doc: &mut Document, table: bool) {
    doc.reference_table.cross_reference_type = if table {
        XrefType::CrossReferenceTable
    } else {
        XrefType::CrossReferenceStream
    };
}

/// Save a clone of `doc` in the given cross-reference format.
pub fn save_bytes(doc: &Document, table: bool) -> Result<Vec<u8>, String> {
    let mut d = doc.clone();
    set_xref(&mut d, table);
    let mut out = Vec::new();
    match guard(|| d.save_to(&mut out)) {
        Ok(Ok(())) => Ok(out),
        Ok(Err(e)) => Err(format!("save error: {}", e)),
        Err(p) => Err(p),
    }
}

pub fn load(bytes: &[u8]) -> Result<Document, String> {
    match guard(|| Document::load_mem(bytes)) {
        Ok(Ok(d)) => Ok(d),
        Ok(Err(e)) => Err(format!("load error: {}", e)),
        Err(p) => Err(p),
    }
}

/// Run `f(i)` for i in 0..n on all cores.
pub fn par_for(n: usize, f: impl Fn(usize) + Sync + Send) {
    (0..n).into_par_iter().for_each(f);
}

pub fn init_pool() {
    let n = std::thread::available_parallelism().map(|n| n.get()).unwrap_or(8);
    let _ = rayon::ThreadPoolBuilder::new().num_threads(n).stack_size(16 << 20).build_global();
}
