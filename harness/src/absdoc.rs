//! Abstract documents for the reference writer (C02, C07, C08, C04 seeds).
use crate::refpdf::{FileSpec, Section, Style};
use lopdf::{Dictionary, Object, ObjectId, Stream, StringFormat};
use std::collections::BTreeMap;

fn name(s: &str) -> Object {
    Object::Name(s.as_bytes().to_vec())
}
fn lit(s: &[u8]) -> Object {
    Object::String(s.to_vec(), StringFormat::Literal)
}
fn hexs(s: &[u8]) -> Object {
    Object::String(s.to_vec(), StringFormat::Hexadecimal)
}
fn dict(e: Vec<(&str, Object)>) -> Dictionary {
    let mut d = Dictionary::new();
    for (k, v) in e {
        d.set(k.as_bytes().to_vec(), v);
    }
    d
}
fn stream(e: Vec<(&str, Object)>, body: &[u8]) -> Object {
    Object::Stream(Stream::new(dict(e), body.to_vec()))
}

/// A menu of direct objects covering every kind and spelling-sensitive content.
pub fn value_menu() -> Vec<Object> {
    vec![
        Object::Null,
        Object::Boolean(true),
        Object::Boolean(false),
        Object::Integer(0),
        Object::Integer(-17),
        Object::Integer(2147483648),
        Object::Real(0.5),
        Object::Real(-12.25),
        Object::Real(3.0),
        Object::Real(0.001),
        name("Name"),
        name("A B#/(x)"),
        Object::Name(vec![0xe9, 0x80, b'%']),
        name(""),
        lit(b"plain"),
        lit(b"(balanced (nested)) text"),
        lit(b")unbalanced(("),
        lit(b"line1\nline2\r\ttab\\ back"),
        lit(b"\x00\x01\x7f\x80\xff 8 9 \\7"),
        lit(b""),
        hexs(b"\x00\x10\xab\xf0"),
        hexs(b""),
        Object::Array(vec![]),
        Object::Array(vec![Object::Integer(1), Object::Integer(2), Object::Reference((1, 0)), name("N"), Object::Integer(3)]),
        Object::Array(vec![Object::Array(vec![Object::Array(vec![lit(b"deep")])]), Object::Dictionary(dict(vec![("K", Object::Null)]))]),
        Object::Dictionary(Dictionary::new()),
        Object::Dictionary(dict(vec![("Type", name("Thing")), ("V", Object::Real(1.5)), ("R", Object::Reference((2, 0))), ("S", lit(b"s"))])),
        Object::Reference((3, 0)),
        Object::Reference((9999, 7)),
    ]
}

/// Abstract single-revision documents. `k` selects the variant.
/// Documents 16.. : shapes that need more than one revision or a large body.
fn abs_doc_extra(k: usize, style: Style) -> FileSpec {
    let vm = value_menu();
    let mut sections = vec![];
    let mut trailer = Dictionary::new();
    match k {
        16 | 24 => {
            // (24: the same objects stored plainly, so that the cross-reference stream holds 300 type-1 rows with
            // offsets up to ~0x18000 - large bytes in neighbouring rows, which predictor arithmetic must not wrap)
            // 300 hex strings of 150 pseudo-random bytes each (xorshift, fixed seed): stored in one object
            // stream the Flate-compressed container exceeds 32 KiB (internal buffer sizes of inflaters)
            let mut objects: BTreeMap<ObjectId, Object> = BTreeMap::new();
            let mut x: u64 = 0x9E37_79B9_7F4A_7C15;
            for id in 1..=300u32 {
                let mut b = Vec::with_capacity(150);
                for _ in 0..150 {
                    x ^= x << 13;
                    x ^= x >> 7;
                    x ^= x << 17;
                    b.push((x >> 32) as u8);
                }
                objects.insert((id, 0), hexs(&b));
            }
            objects.insert((301, 0), Object::Dictionary(dict(vec![("Type", name("Catalog")), ("First", Object::Reference((1, 0))), ("Last", Object::Reference((300, 0)))])));
            trailer.set("Root", Object::Reference((301, 0)));
            sections.push(Section { objects, trailer: trailer.clone(), objstm: Some(if k == 16 { 1 } else { 0 }), omit_xref: vec![], extra_members: vec![] });
        }
        19..=23 => {
            // the highest-numbered (hence, by default, LAST) member of the object stream is a bare keyword,
            // an integer, a name: tokens that end only where the data end
            let last = match k {
                19 => Object::Boolean(true),
                20 => Object::Boolean(false),
                21 => Object::Null,
                22 => Object::Integer(42),
                _ => name("Last"),
            };
            let mut objects: BTreeMap<ObjectId, Object> = BTreeMap::new();
            objects.insert((1, 0), Object::Dictionary(dict(vec![("Type", name("Catalog")), ("K", Object::Reference((3, 0)))])));
            objects.insert((2, 0), Object::Array(vec![Object::Null, Object::Boolean(true), Object::Integer(1)]));
            objects.insert((3, 0), last);
            trailer.set("Root", Object::Reference((1, 0)));
            sections.push(Section { objects, trailer: trailer.clone(), objstm: Some(1), omit_xref: vec![], extra_members: vec![] });
        }
        _ => {
            // k = 17: three revisions, k = 18: four. An object redefined in a MIDDLE revision is not listed
            // again by the newest one; objects are added in every revision; one object is redefined twice.
            let n_rev = if k == 17 { 3 } else { 4 };
            let mut objects: BTreeMap<ObjectId, Object> = BTreeMap::new();
            for id in 1..=6u32 {
                objects.insert((id, 0), Object::Array(vec![Object::Integer(id as i64), lit(b"rev0"), vm[id as usize % vm.len()].clone()]));
            }
            objects.insert((9, 0), stream(vec![("Rev", Object::Integer(0))], b"body of revision 0"));
            trailer.set("Root", Object::Reference((1, 0)));
            trailer.set("Info", Object::Reference((3, 0)));
            sections.push(Section { objects, trailer: trailer.clone(), objstm: None, omit_xref: vec![], extra_members: vec![] });
            for r in 1..n_rev {
                let mut o: BTreeMap<ObjectId, Object> = BTreeMap::new();
                let redefine: Vec<u32> = match r {
                    1 => vec![4, 2, 9],
                    2 => vec![1, 5],
                    _ => vec![2, 6],
                };
                for id in redefine {
                    if id == 9 {
                        o.insert((9, 0), stream(vec![("Rev", Object::Integer(r as i64))], format!("body of revision {}", r).as_bytes()));
                    } else {
                        o.insert((id, 0), Object::Dictionary(dict(vec![("Id", Object::Integer(id as i64)), ("Rev", Object::Integer(r as i64)), ("S", lit(format!("second ({})", r).as_bytes()))])));
                    }
                }
                o.insert((9 + r as u32, 0), Object::Array(vec![name("Added"), Object::Integer(r as i64)]));
                sections.push(Section { objects: o, trailer: trailer.clone(), objstm: None, omit_xref: vec![], extra_members: vec![] });
            }
        }
    }
    FileSpec { version: if k == 16 || k == 24 { "1.6".into() } else { "1.5".into() }, mark: vec![0xe2, 0xe3, 0xcf, 0xd3], style, sections, helper_base: None }
}

pub fn abs_doc(k: usize, style: Style) -> FileSpec {
    if k >= 16 {
        return abs_doc_extra(k, style);
    }
    let vm = value_menu();
    let mut objects: BTreeMap<ObjectId, Object> = BTreeMap::new();
    let mut trailer = Dictionary::new();
    let version = ["1.4", "1.7", "2.0", "1.5"][k % 4].to_string();
    match k % 8 {
        0 => {
            // every value of the menu as its own object, consecutive numbers
            for (i, v) in vm.iter().enumerate() {
                objects.insert((i as u32 + 1, 0), v.clone());
            }
            trailer.set("Root", Object::Reference((27, 0)));
        }
        1 => {
            // sparse numbers, non-zero generations for some, a few streams
            let ids: [(u32, u16); 7] = [(2, 0), (3, 1), (10, 0), (11, 65535), (40, 0), (41, 0), (1000, 2)];
            for (i, id) in ids.iter().enumerate() {
                objects.insert(*id, vm[(i * 5 + 3) % vm.len()].clone());
            }
            objects.insert((5, 0), stream(vec![("Kind", name("S1"))], b"stream body\nwith lines\r\n"));
            objects.insert((12, 0), stream(vec![], b""));
            objects.insert((13, 3), stream(vec![("A", Object::Array(vec![Object::Integer(1), lit(b"x")]))], &[0u8, 255, 13, 10, 37, 40]));
            trailer.set("Root", Object::Reference((2, 0)));
            trailer.set("Info", Object::Reference((10, 0)));
        }
        2 => {
            // one big dictionary holding the whole menu, one big array
            let mut d = Dictionary::new();
            for (i, v) in vm.iter().enumerate() {
                d.set(format!("K{}", i).into_bytes(), v.clone());
            }
            objects.insert((1, 0), Object::Dictionary(d));
            objects.insert((2, 0), Object::Array(vm.clone()));
            objects.insert((3, 0), stream(vec![("Type", name("Data"))], b"endstream inside\nendobj\n"));
            trailer.set("Root", Object::Reference((1, 0)));
            trailer.set("ID", Object::Array(vec![hexs(b"\x01\x02\x03\x04"), lit(b"id(2)")]));
        }
        3 => {
            // page-tree like document
            objects.insert((1, 0), Object::Dictionary(dict(vec![("Type", name("Catalog")), ("Pages", Object::Reference((2, 0)))])));
            objects.insert(
                (2, 0),
                Object::Dictionary(dict(vec![
                    ("Type", name("Pages")),
                    ("Kids", Object::Array(vec![Object::Reference((3, 0)), Object::Reference((6, 0))])),
                    ("Count", Object::Integer(2)),
                ])),
            );
            for (p, c) in [(3u32, 4u32), (6, 7)] {
                objects.insert(
                    (p, 0),
                    Object::Dictionary(dict(vec![
                        ("Type", name("Page")),
                        ("Parent", Object::Reference((2, 0))),
                        ("Contents", Object::Reference((c, 0))),
                        ("MediaBox", Object::Array(vec![Object::Integer(0), Object::Integer(0), Object::Real(595.5), Object::Integer(842)])),
                    ])),
                );
                objects.insert((c, 0), stream(vec![], format!("BT /F1 12 Tf (page {}) Tj ET", p).as_bytes()));
            }
            objects.insert((5, 0), Object::Dictionary(dict(vec![("Title", lit(b"T (x)")), ("Producer", hexs(b"\xfe\xff\x00A"))])));
            trailer.set("Root", Object::Reference((1, 0)));
            trailer.set("Info", Object::Reference((5, 0)));
            trailer.set("Extra", Object::Array(vec![Object::Integer(1), name("two")]));
        }
        4 => {
            // top-level scalars of every kind
            for (i, v) in vm.iter().enumerate().filter(|(_, v)| !matches!(v, Object::Array(_) | Object::Dictionary(_))) {
                objects.insert((100 + 2 * i as u32, 0), v.clone());
            }
            trailer.set("Root", Object::Reference((100, 0)));
        }
        5 => {
            // many streams with tricky bodies
            let bodies: [&[u8]; 6] = [b"a", b"\n", b"\r\n", b"x\r", b"stream\nendstream", b"0123456789"];
            for (i, b) in bodies.iter().enumerate() {
                objects.insert((i as u32 + 1, 0), stream(vec![("I", Object::Integer(i as i64))], b));
            }
            objects.insert((20, 0), Object::Integer(42));
            trailer.set("Root", Object::Reference((20, 0)));
        }
        6 => {
            // single object
            objects.insert((1, 0), vm[(k / 8 + 24) % vm.len()].clone());
            trailer.set("Root", Object::Reference((1, 0)));
        }
        _ => {
            // numbers around xref-stream width boundaries
            for id in [1u32, 255, 256, 257, 65535, 65536] {
                objects.insert((id, 0), Object::Array(vec![Object::Integer(id as i64), vm[(id as usize) % vm.len()].clone()]));
            }
            objects.insert((70000, 0), stream(vec![], b"far"));
            trailer.set("Root", Object::Reference((1, 0)));
        }
    }
    FileSpec {
        version,
        mark: vec![0xe2, 0xe3, 0xcf, 0xd3],
        style,
        sections: vec![Section { objects, trailer, objstm: None, omit_xref: vec![], extra_members: vec![] }],
        helper_base: None,
    }
}
