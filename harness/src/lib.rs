//! Common machinery for the lopdf property checks (see /verif/DESIGN.md §2).
pub mod absdoc;
pub mod choose;
pub mod cmp;
pub mod docgen;
pub mod gen;
pub mod objjson;
pub mod refcmap;
pub mod refcodec;
pub mod refcrypt;
pub mod refdate;
pub mod refpdf;
pub mod rt;
pub mod run;
pub mod sink;
pub mod strict;
pub mod util;
pub mod worker;

pub use run::{Mode, Run};

#[global_allocator]
static GLOBAL: worker::CountingAlloc = worker::CountingAlloc;
