#!/bin/bash
# exclusive lock on /repo for the whole run (checks started by others wait)
if [ "${VERIF_LOCK_HELD:-0}" != "1" ]; then exec env VERIF_LOCK_HELD=1 flock /tmp/verif_repo.lock "$0" "$@"; fi
# usage: tools_seed.sh <worktree> <k> "<check ids>"   e.g. tools_seed.sh /tmp/seed_C01 1 "C01 C03"
# Verifies a seeded mutation (baseline tests pass, demo fails with / passes without) in its
# scratch worktree, then runs the given checks against it in /repo (applied, then reverted).
set -u
WT=$1; K=$2; IDS=$3
P=$WT/out/patch$K.diff; D=$WT/out/demo$K.rs
[ -f "$P" ] || { echo "no patch $P"; exit 9; }
cd $WT && git checkout -q -- . && git status --short | grep -v '^??' && { echo "worktree dirty"; exit 9; }
rm -f tests/demo*.rs tests/seeddemo*.rs; mkdir -p tests && cp $D tests/seeddemo$K.rs
echo "== demo without patch (must pass)"; cargo test --offline --test seeddemo$K 2>&1 | grep -E "^test result|error\[|panicked" | head -3
git apply $P || { echo "PATCH DOES NOT APPLY"; exit 8; }
echo "== baseline with patch"; mv tests/seeddemo$K.rs /tmp/_seeddemo.rs; cargo nextest run --workspace --no-fail-fast --tool-config-file pb:/w/lib/nextest.toml --profile pb --test-threads 8 --offline 2>&1 | grep -E "Summary|error\[" | head -3
cp /tmp/_seeddemo.rs tests/seeddemo$K.rs; echo "== no-default-features build"; cargo build --offline --no-default-features 2>&1 | grep -E "^error" | head -3
echo "== demo with patch (must fail)"; cargo test --offline --test seeddemo$K 2>&1 | grep -E "^test result|error\[" | head -3
git checkout -q -- . ; rm -f tests/seeddemo$K.rs
[ "${WT_ONLY:-0}" = "1" ] && exit 0
echo "== checks against the patch in /repo"
cd /repo && git diff --quiet || { echo "repo dirty"; exit 9; }
git apply $P || { echo "PATCH DOES NOT APPLY TO /repo"; exit 8; }
cd /verif && for id in $IDS; do ./check $id --tier quick 2>&1 | grep -E "^VIOLATION|tier=|MACHINERY|KNOWN" | cut -c1-220 | head -4; done
cd /repo && git checkout -q -- .
