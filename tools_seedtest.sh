#!/bin/bash
# exclusive lock on /repo for the whole run (checks started by others wait)
if [ "${VERIF_LOCK_HELD:-0}" != "1" ]; then exec env VERIF_LOCK_HELD=1 flock /tmp/verif_repo.lock "$0" "$@"; fi
# usage: tools_seedtest.sh <patch file> "<check ids>" [tier]   -- apply a seeded patch to /repo, run checks, revert
P=$1; IDS=$2; TIER=${3:-quick}
cd /repo && git diff --quiet || { echo "repo dirty"; exit 9; }
git apply $P || { echo "PATCH DOES NOT APPLY"; exit 8; }
cd /verif && for id in $IDS; do ./check $id --tier $TIER 2>&1 | grep -E "^VIOLATION|tier=|MACHINERY|observed" | cut -c1-230 | head -5; done
cd /repo && git checkout -q -- .
